"""C07 - canonical JSON follows its specification (c14n/README.md).

Three parties per case (a JSON text, or a malformed text):
  go     c14n.CanonicalJSON on /repo (harness/c07.go)
  model  rocq/Json/C14n.v `canon_at cfg` extracted to OCaml; cfg = the switches of the six repaired
         defects; `canon` of the theorems = all switches on (the code after every repair)
  P      this file: the specification read directly (py_valid / spec_canon), independent of the model

The check first replays the witnesses of the `_refuted` theorems of Props/C07.v on Go to see which of
the recorded defects the tree under test still has (cfg), then demands
  go == model(cfg)                on every case              (correspondence)
  model(fixed) satisfies P        on every case              (the theorems' model is the specification)
  go satisfies P                  on every case, unless the case falls in the narrow input class of a
                                  recorded finding the tree still has (KNOWN-FINDING), else VIOLATION.
"""
import decimal
import json
import math
import re
from vlib import *

FIXED = 63
BIT = {"C07-comma-after-skipped-first-null-member": 1, "C07-negative-float-mangled": 2,
       "C07-incomplete-or-trailing-input-accepted": 4, "C07-out-of-range-number-becomes-null": 8,
       "C07-invalid-name-of-null-member-accepted": 16, "C07-negative-zero-float-keeps-sign": 32,
       "C07-replacement-character-rejected": 0}
TRUSTED = [
    "modelled, not verified: encoding/json's tokenizer (Json/Lexer.v) and strconv.ParseInt/ParseFloat/AppendFloat "
    "(Json/Number.v, exact-integer stand-ins) are Gallina re-implementations validated differentially by this check; "
    "the round-trip theorems take the float round-trip of the stand-ins as an explicit premise (floats_ok); the premise is computable "
    "(floats_okb, theorem float_premise_is_computable) and this check evaluates it on every generated text that may hold a float",
    "the theorems are about canon = the code after fixes/C07-*.diff; the unfixed tree's deviations are the _refuted theorems "
    "and findings/C07.json",
    "oracle P: python json + the README rules transcribed in tools/props/c07.py (spec_canon)",
    "integers outside int64 and objects with duplicate keys are outside the property's domain (correspondence only)",
]

# (finding id, text, result before the repair, result after all repairs[, model configuration of "before"])
# - the same witnesses as the _refuted theorems.  "before" is the model with every switch off (canon_today)
# unless a configuration is given: the sign of zero is only visible once negative floats are written at
# all, its "before" is canon_signed_zero = configuration 31
WITNESSES = [
    ("C07-comma-after-skipped-first-null-member", b'{"a":null,"b":1}', ("ok", b'{,"b":1}'), ("ok", b'{"b":1}')),
    ("C07-negative-float-mangled", b'-1.5', ("ok", b'-.01.5E0'), ("ok", b'-1.5E0')),
    ("C07-negative-float-mangled", b'-2e0', ("ok", b'-.02E0'), ("ok", b'-2.0E0')),
    ("C07-incomplete-or-trailing-input-accepted", b'', ("panic", None), ("err", None)),
    ("C07-incomplete-or-trailing-input-accepted", b'{"a":', ("panic", None), ("err", None)),
    ("C07-incomplete-or-trailing-input-accepted", b'[1,2', ("ok", b'[1,2]'), ("err", None)),
    ("C07-incomplete-or-trailing-input-accepted", b'1 2', ("ok", b'1'), ("err", None)),
    ("C07-incomplete-or-trailing-input-accepted", b'{"a":1}}', ("ok", b'{"a":1}'), ("err", None)),
    ("C07-out-of-range-number-becomes-null", b'1e400', ("ok", b'null'), ("err", None)),
    ("C07-invalid-name-of-null-member-accepted", b'{"\xff":null}', ("ok", b'{}'), ("err", None)),
    ("C07-invalid-name-of-null-member-accepted", b'{"\\ud800":null,"a":1}', ("ok", b'{"a":1}'), ("err", None)),
    ("C07-replacement-character-rejected", b'"\xef\xbf\xbd"', ("err", None), ("err", None)),
    ("C07-negative-zero-float-keeps-sign", b'-0.0', ("ok", b'-0.0E0'), ("ok", b'0.0E0'), 31),
    ("C07-negative-zero-float-keeps-sign", b'[0.0,-0e5]', ("ok", b'[0.0E0,-0.0E0]'), ("ok", b'[0.0E0,0.0E0]'), 31),
]
WITNESSES = [wt if len(wt) == 5 else wt + (0,) for wt in WITNESSES]

# the sign of zero: texts of negative (and positive) float zeros, alone and nested; exercised on every run
ZERO_CORPUS = [b'-0.0', b'0.0', b'-0e0', b'0e0', b'-0.00E+5', b'-0e5', b'-0E-5', b'0.000', b'-0.000e-0', b'-1e-400', b'1e-400',
               b'-0.0e-999', b'-4.9e-325', b'[-0.0]', b'[-0.0,0.0]', b'[0.0,-0e5]', b'{"a":-0.0}', b'{"b":0.0,"a":-0.0,"c":null}',
               b'{"z":[-0.0,{"y":-0e1,"x":0}],"n":-0}', b' [ -0.0 , -0 , 0 , 0.0 ] ', b'[-0.0,-1.0,-2e0,-5e-324]']

I64MIN, I64MAX = -2 ** 63, 2 ** 63 - 1


# ------------------------------------------------------------------------------------------------
# results
# ------------------------------------------------------------------------------------------------
def line(text, flags=0):
    return "c07 canon %d %s" % (flags, w(bytes(text)))


def res(out):
    """wire result -> (class, payload): ('ok', bytes) | ('err', kind) | ('panic', None)"""
    v = parse_wire(out)[0]
    if v[0] == b"ok":
        return ("ok", v[1] if len(v) > 1 else b"")
    k = v[1].decode() if len(v) > 1 else "?"
    if k == "panic":
        return ("panic", None)
    if k in ("syntax", "incomplete", "trailing", "key"):
        k = "syntax"
    return ("err", k)


def balanced(run, lines, shards=8):
    """vlib shards a batch into contiguous slices; the slow cases (numbers with extreme exponents) come
    in runs, so deal the lines round-robin over the slices and put the answers back in order"""
    n = len(lines)
    order = sorted(range(n), key=lambda i: (i % shards, i))
    out = run([lines[i] for i in order])
    res = [None] * n
    for i, o in zip(order, out):
        res[i] = o
    return res


# ------------------------------------------------------------------------------------------------
# P: the specification, read in python
# ------------------------------------------------------------------------------------------------
class Dup(Exception):
    pass


class F:
    """a float literal's value (kept apart from ints: 1 and 1.0 are different content for c14n)"""
    __slots__ = ("v",)

    def __init__(self, v):
        self.v = v

    def __eq__(self, o):
        # -0.0 and 0.0 are the same number: zero has no sign (README rule 6.1)
        return isinstance(o, F) and self.v == o.v

    def __hash__(self):
        return hash(self.v)

    def __repr__(self):
        return "F(%r)" % self.v


def _pairs(ps):
    ks = [k for k, _ in ps]
    if len(set(ks)) != len(ks):
        raise Dup()
    return dict(ps)


def _const(x):
    raise ValueError("constant " + x)


def py_parse(text):
    """('ok', value) for exactly one complete RFC 8259 value in valid UTF-8 without unpaired surrogates,
    ('dup', None) when an object repeats a key (outside the domain), ('bad', why) otherwise"""
    try:
        s = bytes(text).decode("utf-8")
    except UnicodeDecodeError:
        return ("bad", "utf8")
    try:
        v = json.loads(s, object_pairs_hook=_pairs, parse_float=lambda x: F(float(x)), parse_constant=_const)
    except Dup:
        return ("dup", None)
    except RecursionError:
        return ("bad", "depth")
    except ValueError as e:
        return ("bad", str(e))
    if s[:1] == "\ufeff":
        return ("bad", "bom")
    try:
        json.dumps(v, default=lambda f: f.v, ensure_ascii=False).encode("utf-8")
    except UnicodeEncodeError:
        return ("bad", "surrogate")
    return ("ok", v)


def walk(v):
    yield v
    if isinstance(v, list):
        for x in v:
            yield from walk(x)
    elif isinstance(v, dict):
        for k, x in v.items():
            yield k
            yield from walk(x)


def in_domain(v):
    return all(not (isinstance(x, int) and not isinstance(x, bool)) or I64MIN <= x <= I64MAX for x in walk(v))


def pnorm(v):
    if isinstance(v, list):
        return [pnorm(x) for x in v]
    if isinstance(v, dict):
        return {k: pnorm(x) for k, x in sorted(v.items()) if x is not None}
    return v


ESC = {0x22: '\\"', 0x5C: "\\\\", 8: "\\b", 9: "\\t", 10: "\\n", 12: "\\f", 13: "\\r"}


def spec_string(s):
    out = ['"']
    for ch in s:
        o = ord(ch)
        if o in ESC:
            out.append(ESC[o])
        elif o < 0x20:
            out.append("\\u%04X" % o)
        else:
            out.append(ch)
    out.append('"')
    return "".join(out)


def spec_float(f):
    if f != f or f in (math.inf, -math.inf):
        raise OverflowError
    if f == 0:
        return "0.0E0"      # zero carries no minus sign (README rule 6.1) and its float form is the example's 0.0E0
    sign = "-" if f < 0 else ""
    t = decimal.Decimal(repr(abs(f))).as_tuple()
    ds = "".join(map(str, t.digits)).lstrip("0")
    e = t.exponent
    while len(ds) > 1 and ds[-1] == "0":
        ds = ds[:-1]
        e += 1
    x = e + len(ds) - 1
    return "%s%s.%sE%d" % (sign, ds[0], ds[1:] or "0", x)


def spec_canon(v):
    """canonical text of a normalised value, by the README's rules"""
    if v is None:
        return "null"
    if v is True:
        return "true"
    if v is False:
        return "false"
    if isinstance(v, int):
        return str(v)
    if isinstance(v, F):
        return spec_float(v.v)
    if isinstance(v, str):
        return spec_string(v)
    if isinstance(v, list):
        return "[" + ",".join(spec_canon(x) for x in v) + "]"
    return "{" + ",".join(spec_string(k) + ":" + spec_canon(x) for k, x in sorted(v.items())) + "}"


NUM_OK = re.compile(rb"-?(0|[1-9][0-9]*)$|-?[0-9]\.[0-9]+E-?(0|[1-9][0-9]*)$")
STR_TOK = re.compile(rb'"(?:[^"\\]|\\.)*"')
ESC_OK = re.compile(rb'\\(?:["\\btnfr]|u00[01][0-9A-F])')


def shape_problems(out):
    """clauses of the README checked on the output text alone"""
    probs = []
    try:
        s = out.decode("utf-8")
    except UnicodeDecodeError:
        return ["output is not valid UTF-8"]
    order = []

    def hook(ps):
        ks = [k for k, _ in ps]
        if ks != sorted(ks) or len(set(ks)) != len(ks):
            order.append(ks)
        if any(x is None for _, x in ps):
            probs.append("object member with null value in the output")
        return dict(ps)
    try:
        json.loads(s, object_pairs_hook=hook, parse_float=lambda x: F(float(x)), parse_constant=_const)
    except (ValueError, RecursionError) as e:
        return ["output is not valid JSON: %s" % e]
    if order:
        probs.append("member names not in strictly increasing code point order: %r" % (order[0],))
    rest = STR_TOK.sub(b'""', out)
    if re.search(rb"[ \t\r\n]", rest):
        probs.append("insignificant whitespace in the output")
    for st in STR_TOK.findall(out):
        for m in re.finditer(rb"\\.", st):
            if not ESC_OK.match(st, m.start()):
                probs.append("escape %r is not the minimal one of the README" % st[m.start():m.start() + 6])
                break
        if any(c < 0x20 for c in st):
            probs.append("raw control character in a string")
        for c in (8, 9, 10, 12, 13):
            if (b"\\u%04X" % c) in st.replace(b"\\\\", b""):
                probs.append("long escape used where a two-character escape exists")
    for tok in re.findall(rb'[-+0-9.eE]+', re.sub(rb'[{}\[\]:,]|true|false|null', b" ", rest.replace(b'""', b" "))):
        if not NUM_OK.match(tok):
            probs.append("number %r is neither a plain integer nor d.d+E-?d+ without redundant zeros" % tok)
        elif b"E" in tok:
            mant = tok.split(b"E")[0].lstrip(b"-")
            if (mant.endswith(b"0") and not mant.endswith(b".0")) or (mant[:1] == b"0" and mant != b"0.0"):
                probs.append("float mantissa %r not normalised" % tok)
    return probs


def judge(text, go):
    """P: returns (ok?, clause, expectation) for Go's result `go` on `text`"""
    kind, v = py_parse(text)
    if kind == "dup":
        return (True, "outside domain (duplicate keys)", None)
    if kind == "bad":
        if go[0] == "err":
            return (True, "", "error")
        return (False, "input that is not one complete valid-UTF-8 JSON value must be rejected (%s); got %s" % (v, go[0]), "error")
    if not in_domain(v):
        return (True, "outside domain (integer beyond int64)", None)
    try:
        exp = spec_canon(pnorm(v)).encode("utf-8")
    except OverflowError:
        if go[0] == "err":
            return (True, "", "error")
        return (False, "a number that no float64 represents must be rejected, not altered", "error")
    if go[0] != "ok":
        return (False, "valid JSON in the domain must be canonicalised; got %s %s" % go, exp)
    out = go[1]
    probs = shape_problems(out)
    if probs:
        return (False, probs[0], exp)
    k2, v2 = py_parse(out)
    if k2 != "ok" or pnorm(v) != v2:
        return (False, "parsing the canonical form does not give back the input's content minus null members", exp)
    if out != exp:
        return (False, "canonical form differs from the specification's", exp)
    return (True, "", exp)


# ---- narrow input classes of the recorded findings ----
def m_comma(text, v):
    for x in walk(v):
        if isinstance(x, dict) and x:
            ks = sorted(x, key=lambda k: k.encode("utf-8"))
            if x[ks[0]] is None and any(x[k] is not None for k in ks[1:]):
                return True
    return False


def m_negfloat(text, v):
    return any(isinstance(x, F) and math.copysign(1, x.v) < 0 for x in walk(v))


def m_negzero(text, v):
    return any(isinstance(x, F) and x.v == 0 and math.copysign(1, x.v) < 0 for x in walk(v))


def m_range(text, v):
    return any(isinstance(x, F) and x.v in (math.inf, -math.inf) for x in walk(v))


def m_fffd(text, v):
    return any(isinstance(x, str) and "\ufffd" in x for x in walk(v))


def m_eof(text):
    """blank input, a text that ends where more is required, or a complete value followed by more"""
    s = bytes(text).decode("utf-8", errors="surrogateescape")
    if s.strip(" \t\r\n") == "":
        return True
    t = s.lstrip(" \t\r\n")
    try:
        _, idx = json.JSONDecoder(parse_constant=_const).raw_decode(t)
        return t[idx:].strip(" \t\r\n") != ""          # trailing data after one complete value
    except ValueError as e:
        pos = getattr(e, "pos", None)
        return pos is not None and pos >= len(t.rstrip(" \t\r\n"))   # ran off the end
    except RecursionError:
        return False


def m_nullkey(text):
    """the text is JSON but for invalid UTF-8 bytes / unpaired \\u surrogates, and some of those sit in the
    name of a member whose value is null"""
    try:
        v = json.loads(bytes(text).decode("utf-8", errors="surrogateescape"), parse_float=lambda x: F(float(x)), parse_constant=_const)
    except (ValueError, RecursionError):
        return False
    return any(isinstance(x, dict) and any(y is None and any(0xD800 <= ord(ch) <= 0xDFFF for ch in k) for k, y in x.items())
               for x in walk(v))


def classify(text):
    """ids of the recorded findings whose input class the text belongs to"""
    kind, v = py_parse(text)
    ids = []
    if kind == "ok":
        if m_comma(text, v):
            ids.append("C07-comma-after-skipped-first-null-member")
        if m_negfloat(text, v):
            ids.append("C07-negative-float-mangled")
        if m_negzero(text, v):
            ids.append("C07-negative-zero-float-keeps-sign")
        if m_range(text, v):
            ids.append("C07-out-of-range-number-becomes-null")
        if m_fffd(text, v):
            ids.append("C07-replacement-character-rejected")
    elif kind == "bad":
        if m_eof(text):
            ids.append("C07-incomplete-or-trailing-input-accepted")
        if m_nullkey(text):
            ids.append("C07-invalid-name-of-null-member-accepted")
    if kind == "bad":
        # a truncated / trailing text may also carry the other classes in its complete part; they do
        # not matter: the expectation is an error
        pass
    return ids


# ------------------------------------------------------------------------------------------------
# generators
# ------------------------------------------------------------------------------------------------
SCALAR_STRATA = [(0x20, 0x7F), (0x80, 0x7FF), (0x800, 0xD7FF), (0xE000, 0xFFFF), (0x10000, 0x10FFFF)]


def esc_char(rng, cp, style):
    """one code point in a JSON string, in escape style `style` (0 raw where allowed)"""
    short = {0x22: '\\"', 0x5C: "\\\\", 0x2F: "\\/", 8: "\\b", 9: "\\t", 10: "\\n", 12: "\\f", 13: "\\r"}
    must = cp < 0x20 or cp in (0x22, 0x5C)
    if style == 0 and not must:
        return chr(cp)
    if style <= 1 and cp in short:
        return short[cp]
    if cp >= 0x10000:
        c = cp - 0x10000
        fmt = "\\u%04x\\u%04x" if style % 2 else "\\u%04X\\u%04X"
        return fmt % (0xD800 + (c >> 10), 0xDC00 + (c & 0x3FF))
    return ("\\u%04x" if style % 2 else "\\u%04X") % cp


def render_string(rng, s, p_esc):
    return '"' + "".join(esc_char(rng, ord(ch), rng.randint(1, 3) if rng.random() < p_esc else 0) for ch in s) + '"'


def single_chars(c, quick):
    rng = c.rng
    cps = set(range(0, 0x800)) | {0xD7FF, 0xE000, 0xFFFD, 0xFFFC, 0xFFFE, 0xFFFF, 0x10000, 0x10FFFF, 0x2028, 0x2029, 0xFEFF}
    if quick:
        for lo, hi in SCALAR_STRATA[2:]:
            n = 12000 if hi - lo > 20000 else 6000
            cps.update(rng.randint(lo, hi) for _ in range(n))
            cps.update(range(lo, lo + 64))
            cps.update(range(hi - 63, hi + 1))
        cps.update(range(0xFF00, 0x10000))
        cps.update(range(0x10000, 0x10400))
    else:
        cps = set(range(0, 0xD800)) | set(range(0xE000, 0x110000))
    cases = []
    for cp in sorted(cps):
        if 0xD800 <= cp <= 0xDFFF:
            continue
        st = rng.randint(0, 3)
        cases.append(("single-char-string", ('"%s"' % esc_char(rng, cp, st)).encode("utf-8")))
        st = rng.randint(0, 3)
        cases.append(("single-char-key", ('{"%s":%d}' % (esc_char(rng, cp, st), cp % 7)).encode("utf-8")))
    # every ASCII control character: raw (malformed) and in each escape spelling
    for cp in range(0x20):
        cases.append(("single-char-string", b'"' + bytes([cp]) + b'"'))
        for st in (1, 2, 3):
            cases.append(("single-char-string", ('"%s"' % esc_char(rng, cp, st)).encode()))
            cases.append(("single-char-key", ('{"%s":null,"k":"%s"}' % (esc_char(rng, cp, st), esc_char(rng, cp, st))).encode()))
    return cases


def key_alphabet(rng):
    ks = ["", " ", "!", '"', "#", "/", "0", "9", "A", "Z", "\\", "a", "z", "~", "\x7f", "\x00", "\x01", "\x1f", "\t", "\n",
          "\x80", "\xe9", "\u07ff", "\u0800", "\u2028", "\ud7ff", "\ue000", "\uff5e", "\ufffc", "\ufffe", "\uffff",
          "\U00010000", "\U0001f600", "\U0010ffff", "a\x00", "a ", "aa", "ab", "a\xe9", "a\uffff", "a\U00010000", "b",
          "\uffff\uffff", "\U00010000\x00", "\ue000a", "\U0001f600a", "A\x00", "Aa", "aA", "\xe9\xe9", "0a", "00", "1", "10", "2"]
    while len(ks) < 160:
        n = rng.randint(1, 3)
        k = "".join(chr(rng.choice([rng.randint(0, 0x7F), rng.randint(0x80, 0x7FF), rng.randint(0xE000, 0xFFFF),
                                    rng.randint(0x10000, 0x10FFFF), rng.randint(0x800, 0xD7FF)])) for _ in range(n))
        if k not in ks and "\ufffd" not in k:
            ks.append(k)
    return ks


def key_pairs(c, quick):
    rng = c.rng
    ks = key_alphabet(rng)
    pairs = [(a, b) for a in ks for b in ks if a != b]
    if quick:
        # all pairs over the hand-written part, a sample of the rest
        head = set(ks[:56])
        pairs = [p for p in pairs if (p[0] in head and p[1] in head) or rng.random() < 0.22]
    cases = []
    for a, b in pairs:
        t = "{%s:1,%s:2}" % (render_string(rng, a, 0.2), render_string(rng, b, 0.2))
        cases.append(("key-pair", t.encode("utf-8")))
    return cases


def int_cases(c, quick):
    rng = c.rng
    vals = {0, 1, -1, 9, 10, -10, 99, 100, I64MAX, I64MIN, I64MAX - 1, I64MIN + 1, 2 ** 53, 2 ** 53 + 1, -2 ** 53 - 1, 2 ** 31, -2 ** 31,
            2 ** 32, 2 ** 62, -2 ** 62, I64MAX + 1, I64MIN - 1, 10 ** 19, -10 ** 19, 10 ** 30}
    for k in range(0, 19):
        for d in (-1, 0, 1):
            vals.add(10 ** k + d)
            vals.add(-(10 ** k) + d)
    for k in range(1, 64):
        vals.add(2 ** k - 1)
        vals.add(-2 ** k)
    for _ in range(1500 if quick else 60000):
        b = rng.randint(1, 66)
        vals.add(rng.choice([1, -1]) * rng.getrandbits(b))
    cases = [("integer", str(v).encode()) for v in sorted(vals)]
    cases += [("integer", b"-0"), ("integer", b"[0,-0,1]"), ("integer", b'{"n":-0}')]
    for v in list(sorted(vals))[::7]:
        cases.append(("integer", ('{"v":[%d]}' % v).encode()))
    return cases


def float_forms(rng, digits, e10, neg):
    """several literals with the exact decimal value (-1)^neg * int(digits) * 10^e10, all with a '.' or an exponent"""
    forms = []
    sg = "-" if neg else ""
    n = len(digits)
    # scientific d.ddd e x
    x = e10 + n - 1
    forms.append("%s%s.%se%d" % (sg, digits[0], digits[1:] or "0", x))
    forms.append("%s%s.%s0E%s%d" % (sg, digits[0], digits[1:] or "0", "+" if x >= 0 else "", x))
    # integer mantissa with exponent
    forms.append("%s%se%d" % (sg, digits.lstrip("0") or "0", e10))
    # positional when small
    if -25 <= e10 <= 20:
        if e10 >= 0:
            forms.append("%s%s%s.0" % (sg, digits.lstrip("0") or "0", "0" * e10))
        elif -e10 < n:
            ip = digits[:n + e10].lstrip("0") or "0"
            forms.append("%s%s.%s" % (sg, ip, digits[n + e10:]))
        else:
            forms.append("%s0.%s%s" % (sg, "0" * (-e10 - n), digits))
    # shifted exponent
    sh = rng.randint(1, 5)
    forms.append("%s%s%s.0e%d" % (sg, digits.lstrip("0") or "0", "0" * sh, e10 - sh))
    return forms


def float_cases(c, quick):
    rng = c.rng
    cases = []
    mants = ["1", "2", "5", "9", "10", "15", "25", "99", "101", "123", "1234567", "9007199254740993", "17976931348623157",
             "22250738585072014", "4940656458412465", "5", "24703282292062327", "24703282292062328", "123456789012345678",
             "999999999999999999999", "1000000000000000000001", "4503599627370496", "4503599627370497", "89255", "45"]
    exps = list(range(-30, 31)) + [-345, -342, -330, -325, -324, -323, -320, -310, -308, -307, -300, -200, -100, -50, 50, 100, 200, 290,
                                   300, 305, 307, 308, 309, 310, 320, 400, 4000, -4000]
    for m in mants:
        for e in exps:
            if quick and abs(e) > 30 and rng.random() < 0.72:
                continue
            neg = rng.random() < 0.5
            fs = float_forms(rng, m, e, neg)
            cases.append(("decimal-grid", rng.choice(fs).encode()))
            if abs(e) <= 30:
                cases.append(("decimal-grid", float_forms(rng, m, e, not neg)[rng.randint(0, 2)].encode()))
    N = 2500 if quick else 150000
    import struct
    for _ in range(N):
        r = rng.random()
        if r < 0.45:
            nd = rng.randint(1, 17)
            m = str(rng.randint(1, 10 ** nd))
            e = rng.randint(-25, 22) if rng.random() < 0.9 else rng.randint(-340, 300)
        elif r < 0.8:
            f = struct.unpack("<d", struct.pack("<Q", rng.getrandbits(64)))[0]
            if f != f or f in (math.inf, -math.inf) or f == 0:
                continue
            if quick and not (1e-40 < abs(f) < 1e40) and rng.random() < 0.85:
                f = f * 0 + rng.uniform(-1e6, 1e6)
            t = decimal.Decimal(repr(abs(f))).as_tuple()
            m, e = "".join(map(str, t.digits)), t.exponent
        else:
            # exactly halfway between two floats / just beside it (hard rounding cases)
            mant = rng.getrandbits(53) | (1 << 52)
            ex = rng.randint(-60, 10)
            from fractions import Fraction
            x = (Fraction(2 * mant + 1) / 2) * Fraction(2) ** ex
            d = decimal.Context(prec=400).divide(decimal.Decimal(x.numerator), decimal.Decimal(x.denominator))
            t = d.as_tuple()
            m, e = "".join(map(str, t.digits)), t.exponent
            if rng.random() < 0.5:
                m, e = m + rng.choice(["1", "0000001", "9"]), e - rng.choice([1, 7, 1])
                e = t.exponent - (len(m) - len(t.digits))
        cases.append(("decimal-random", rng.choice(float_forms(rng, m, e, rng.random() < 0.5)).encode()))
    return cases


def gen_value(rng, depth):
    r = rng.random()
    if depth <= 0 or r < 0.42:
        k = rng.random()
        if k < 0.12:
            return None
        if k < 0.22:
            return rng.random() < 0.5
        if k < 0.45:
            return rng.choice([0, 1, -1, rng.randint(-1000, 1000), rng.randint(I64MIN, I64MAX), I64MAX, I64MIN])
        if k < 0.65:
            nd = rng.randint(1, 8)
            return F(float("%s%de%d" % (rng.choice(["", "", "-"]), rng.randint(0, 10 ** nd), rng.randint(-12, 12))))
        return gen_str(rng)
    if r < 0.7:
        return [gen_value(rng, depth - 1) for _ in range(rng.randint(0, 4))]
    d = {}
    for _ in range(rng.randint(0, 5)):
        d[gen_str(rng) if rng.random() < 0.6 else rng.choice(["", "a", "b", "id", "name", "z", "A"])] = gen_value(rng, depth - 1)
    return d


def gen_str(rng):
    n = rng.choice([0, 1, 1, 2, 3, 5, 9])
    out = []
    for _ in range(n):
        k = rng.random()
        if k < 0.5:
            cp = rng.randint(0x20, 0x7E)
        elif k < 0.6:
            cp = rng.randint(0, 0x1F)
        elif k < 0.7:
            cp = rng.choice([0x22, 0x5C, 0x2F, 0x7F, 0x3C, 0x3E, 0x26, 0x2028, 0x2029])
        elif k < 0.8:
            cp = rng.randint(0x80, 0x7FF)
        elif k < 0.9:
            cp = rng.choice([rng.randint(0x800, 0xD7FF), rng.randint(0xE000, 0xFFFC), 0xFFFE, 0xFFFF])
        else:
            cp = rng.randint(0x10000, 0x10FFFF)
        out.append(chr(cp))
    return "".join(out)


def depth_of(v):
    if isinstance(v, list):
        return 1 + max([depth_of(x) for x in v] + [0])
    if isinstance(v, dict):
        return 1 + max([depth_of(x) for x in v.values()] + [0])
    return 0


def render(rng, v, style):
    """one concrete syntax of v: member order, whitespace, escape style, number spelling, interleaved null members"""
    p_ws, p_esc, p_null = style
    def ws():
        return "".join(rng.choice(" \t\n\r") for _ in range(rng.randint(1, 3))) if rng.random() < p_ws else ""
    def go(x):
        if x is None:
            return "null"
        if x is True:
            return "true"
        if x is False:
            return "false"
        if isinstance(x, int):
            return "-0" if x == 0 and rng.random() < 0.1 else str(x)
        if isinstance(x, F):
            neg = math.copysign(1, x.v) < 0
            if x.v == 0:
                return rng.choice(["-0.0", "-0e0", "-0.00E+5"] if neg else ["0.0", "0e0", "0.00E-3"])
            t = decimal.Decimal(repr(abs(x.v))).as_tuple()
            return rng.choice(float_forms(rng, "".join(map(str, t.digits)), t.exponent, neg))
        if isinstance(x, str):
            return render_string(rng, x, p_esc)
        if isinstance(x, list):
            return "[" + ws() + ("," + ws()).join(go(y) + ws() for y in x) + "]"
        items = list(x.items())
        rng.shuffle(items)
        if rng.random() < p_null:
            for _ in range(rng.randint(1, 2)):
                nk = gen_str(rng) or "n"
                if nk not in x and all(nk != k for k, _ in items) and "\ufffd" not in nk:
                    items.insert(rng.randint(0, len(items)), (nk, None))
        return "{" + ws() + ("," + ws()).join(render_string(rng, k, p_esc) + ws() + ":" + ws() + go(y) + ws() for k, y in items) + "}"
    return ws() + go(v) + ws()


def nested_cases(c, quick):
    rng = c.rng
    groups = []
    N = 2600 if quick else 150000
    while len(groups) < N:
        v = gen_value(rng, rng.randint(1, 6))
        if not isinstance(v, (list, dict)) and rng.random() < 0.8:
            continue
        styles = [(0.0, 0.0, 0.0), (rng.random(), rng.random() * 0.6, 0.5), (0.6, 1.0 if rng.random() < 0.3 else 0.3, 0.7)]
        texts = [render(rng, v, s).encode("utf-8") for s in styles]
        groups.append((v, texts))
    return groups


def malformed_cases(c, quick, valid_texts):
    rng = c.rng
    cases = [("malformed", t) for t in [b"", b" ", b"\n\t ", b"{", b"[", b"}", b"]", b",", b":", b'"', b"-", b"tru", b"nul", b"fals",
                                         b"{\"a\"", b"{\"a\":", b"{\"a\":1", b"{\"a\":1,", b"[1", b"[1,", b"[1,2", b"1 2", b"{\"a\":1}}", b"[]]", b"01",
                                         b"1.", b"1e", b"1e+", b".5", b"+1", b"0x10", b"NaN", b"Infinity", b"-Infinity", b"[1,]", b"[,1]",
                                         b"{,}", b"{\"a\":1,}", b"{\"a\" 1}", b"{1:2}", b"{null:1}", b"[1 2]", b"{\"a\":1 \"b\":2}", b"nulll", b"truefalse",
                                         b"\xef\xbb\xbf1", b"'a'", b"\"\\x41\"", b"\"\\u12\"", b"\"\\u12G4\"", b"\"\\\"", b"\"\\ud800\"", b"\"\\udc00\"",
                                         b"\"\\ud800\\u0041\"", b"\"\\ud800\\ud800\"", b"\"\\udc00\\ud800\"", b"\"\xff\"", b"\"\xc0\x80\"", b"\"\xed\xa0\x80\"",
                                         b"\"\xf4\x90\x80\x80\"", b"\"\xe2\x82\"", b"\"\xc3\"", b"\"\x80\"", b"{\"\xff\":1}", b"{\"\xff\":null}", b"{\"a\":1,\"\\udc00\":null}", b"[{\"\xc3\":null,\"b\":[]}]", b"\"a\nb\"", b"\"\x00\"", b"\"\t\"",
                                         b"[1e400]", b"{\"a\":-1e400}", b"1e309", b"2e308", b"-1.8e308", b"[\"\\ud83d\"]", b"1 ", b" 1", b"[] x", b"{} {}", b"null null",
                                         b"\"a\" \"b\"", b"1,2", b"1]", b"[[[[[[[[", b"{\"a\":{\"b\":{\"c\":"]]
    # truncation at every byte of valid texts; trailing tokens; single-byte corruption
    pool = [t for t in valid_texts if 2 <= len(t) <= (60 if quick else 200)]
    rng.shuffle(pool)
    budget = 16000 if quick else 400000
    for t in pool:
        if budget <= 0:
            break
        for i in range(len(t)):
            cases.append(("malformed-truncation", t[:i]))
        budget -= len(t)
    for t in pool[: (2500 if quick else 60000)]:
        tail = rng.choice([b"}", b"]", b",", b"1", b" 2", b"\n{}", b"x", b"null", b"\"\"", b" ]", b":", b"\x00"])
        cases.append(("malformed-trailing", t + tail))
        cases.append(("malformed-trailing", t + rng.choice([b" ", b"\n", b"\t\r"])))   # still valid: trailing whitespace
    for t in pool[: (3000 if quick else 80000)]:
        b = bytearray(t)
        i = rng.randrange(len(b))
        k = rng.random()
        if k < 0.35:
            b[i] = rng.choice([0xFF, 0x80, 0xC0, 0xED, 0xF5, 0x00, 0x1F, 0x0A])
        elif k < 0.6:
            del b[i]
        elif k < 0.8:
            b.insert(i, rng.choice(b'"\\{}[],:u0 '))
        else:
            j = t.find(b"\\u")
            if j >= 0:
                b[j + 2:j + 6] = rng.choice([b"d800", b"DFFF", b"dc00", b"12", b"zzzz", b"D83D"])
            else:
                b.insert(i, 0x5C)
        cases.append(("malformed-corrupted", bytes(b)))
    return cases


# ------------------------------------------------------------------------------------------------
def detect_flags(c):
    """replays the witnesses of the _refuted theorems on Go; returns the configuration of the tree under test"""
    lines = [line(wt[1]) for wt in WITNESSES]
    go = [res(o) for o in run_go(lines, shards=1)]
    mt = [res(o) for o in run_oracle([line(wt[1], wt[4]) for wt in WITNESSES], shards=1)]
    mf = [res(o) for o in run_oracle([line(wt[1], FIXED) for wt in WITNESSES], shards=1)]
    state = {}
    for (fid, t, today, fixed, _base), g, a, b in zip(WITNESSES, go, mt, mf):
        def proj(r):
            return (r[0], r[1] if r[0] == "ok" else None)
        if proj(a) != today or proj(b) != fixed:
            c.report("witness %r: model gives %r (unfixed) / %r (fixed), the _refuted theorem states %r / %r" % (t, a, b, today, fixed),
                     {"theorem": "rocq/Props/C07.v", "witness": t}, no_input=True)
        c.count("refuted-witness-replay", 1, t)
        if proj(g) == today and today != fixed:
            state.setdefault(fid, set()).add("today")
            c.report("witness of %s reproduced on the implementation: %r -> %r" % (fid, t, g), {"case": t}, finding_id=fid)
        elif proj(g) == fixed:
            state.setdefault(fid, set()).add("fixed")
            if today == fixed:
                c.report("witness of %s reproduced on the implementation: %r -> %r" % (fid, t, g), {"case": t}, finding_id=fid)
        else:
            state.setdefault(fid, set()).add("other")
            c.report("c14n.CanonicalJSON(%r) = %r: neither the recorded defect %r nor the specified result %r" % (t, g, today, fixed),
                     {"case": t.decode("latin1"), "implementation": g, "clause": fid})
    flags = 0
    for fid, bit in BIT.items():
        s = state.get(fid, set())
        if bit and s == {"fixed"}:
            flags |= bit
        elif bit and s != {"today"}:
            c.report("witnesses of %s disagree with each other on the implementation (%s)" % (fid, sorted(s)),
                     {"case": fid, "clause": "partially repaired defect"})
    return flags


def run(c):
    quick = c.tier == "quick"
    if not std_builds(c):
        return
    ok, out = translate()
    if not ok:
        c.report("translator failed (c14n/tables.go safeSet no longer readable): " + out[-800:], {"correspondence": "translate"}, no_input=True)
        return
    proved = c.prove()
    ok, out = build_oracle()
    if not ok:
        c.report("extraction/oracle build failed: " + out[-800:], {"machinery": "oracle"}, no_input=True)
        return
    flags = detect_flags(c)
    c.cov["tree_configuration"] = {"flags": flags, "meaning": "bit set = defect repaired in the tree under test (1 comma, 2 negative float, 4 eof/trailing, 8 range, 16 name of null member, 32 sign of float zero)"}

    # ---- cases
    cases = []          # (stream, text)
    cases += single_chars(c, quick)
    cases += key_pairs(c, quick)
    cases += int_cases(c, quick)
    cases += float_cases(c, quick)
    cases += [("float-zero", t) for t in ZERO_CORPUS]
    groups = nested_cases(c, quick)
    gidx = {}
    for gi, (v, texts) in enumerate(groups):
        for t in texts:
            gidx[len(cases)] = gi
            cases.append(("nested-3-syntaxes", t))
    valid_pool = [t for s, t in cases if s in ("nested-3-syntaxes", "key-pair", "decimal-grid")][::3] + list(ZERO_CORPUS) + [t for s, t in cases if s == "single-char-key"][::40]
    cases += malformed_cases(c, quick, valid_pool)

    texts = [t for _, t in cases]
    go = [res(o) for o in run_go([line(t) for t in texts])]
    md = [res(o) for o in balanced(run_oracle, [line(t, flags) for t in texts])]
    mf = md if flags == FIXED else [res(o) for o in balanced(run_oracle, [line(t, FIXED) for t in texts])]

    # the computable float premise of the round-trip theorems (floats_okb) on every text that may hold a float
    prem_idx = [i for i, (st_, t) in enumerate(cases) if st_ in ("decimal-grid", "decimal-random", "float-zero", "nested-3-syntaxes")]
    prem = balanced(run_oracle, ["c07 premise " + w(bytes(cases[i][1])) for i in prem_idx])
    prem_held = 0
    for i, o in zip(prem_idx, prem):
        if o.strip() == "1":
            prem_held += 1
        elif o.strip() == "0":
            t = cases[i][1]
            c.report("premise of the round-trip theorems fails on %r: the float text written by the model is not read back as the same float "
                     "(strconv stand-in of Json/Number.v)" % (t,), {"theorem": "rocq/Props/C07.v floats_ok", "case": t.decode("latin1")}, no_input=True)
    c.count("float-premise-evaluated", len(prem_idx))
    c.cov["float_premise"] = {"texts_evaluated": len(prem_idx), "held": prem_held,
                              "rejected_or_out_of_range": len(prem_idx) - prem_held,
                              "meaning": "floats_okb (parse text) = true: the premise floats_ok of canon_parses_back_to_norm / canon_is_idempotent / "
                                         "canon_injective_on_content holds of this input (theorem float_premise_is_computable)"}
    if prem_held < len(prem_idx) // 3:
        c.report("float premise evaluated on too few accepted texts: %d of %d" % (prem_held, len(prem_idx)), {"machinery": "premise"}, no_input=True)

    # idempotence: canonicalise Go's outputs again
    outs = sorted({g[1] for g in go if g[0] == "ok"})
    again = dict(zip(outs, [res(o) for o in run_go([line(t) for t in outs])]))

    viol = {}      # (kind, clause-ish) -> shortest failing (text, message, replay)
    def add(kind, key, text, msg, replay, fid=None):
        k = (kind, key, fid)
        if k not in viol or len(text) < len(viol[k][0]):
            viol[k] = (text, msg, replay, fid, viol.get(k, (0, 0, 0, 0, 0))[4] + 1 if k in viol else 1)
        else:
            t0, m0, r0, f0, n0 = viol[k]
            viol[k] = (t0, m0, r0, f0, n0 + 1)

    verdicts = {}
    kinds = {}
    for i, ((stream, t), g, a, b) in enumerate(zip(cases, go, md, mf)):
        c.count(stream, 1, t)
        kinds[g[0] if g[0] != "err" else "err-" + g[1]] = kinds.get(g[0] if g[0] != "err" else "err-" + g[1], 0) + 1
        # (1) correspondence
        if g != a:
            add("correspondence", stream, t, "implementation %r, model (configuration %d) %r" % (g, flags, a),
                {"case": t.decode("latin1"), "stream": stream, "implementation": g, "model": a, "clause": "Go = model",
                 "rerun": "echo '%s' | bin/vharness ; echo '%s' | bin/oracle" % (line(t), line(t, flags))})
        # (2) the theorems' model against the specification
        okm, clause_m, exp = judge(t, b)
        if not okm:
            ids = classify(t)
            if "C07-replacement-character-rejected" in ids and b == ("err", "utf8"):
                pass   # the fixed model keeps this recorded finding (no patch proposed)
            else:
                add("model-vs-spec", clause_m[:40], t, "canon (fixed model) gives %r: %s" % (b, clause_m),
                    {"theorem": "rocq/Props/C07.v", "case": t.decode("latin1"), "model": b, "specification": exp})
        # (3) P on the implementation
        okg, clause, exp = judge(t, g)
        if okg and g[0] == "ok" and exp not in (None, "error"):
            if again.get(g[1]) != ("ok", g[1]):
                okg, clause = False, "canonical form does not canonicalise to itself (second pass gives %r)" % (again.get(g[1]),)
        if not okg:
            ids = [f for f in classify(t) if not (flags & BIT[f]) or BIT[f] == 0]
            if ids and g == a and c.known(ids[0]):
                c.report("%r -> %r (%s)" % (t[:80], g, clause[:100]), {"case": t.decode("latin1")}, finding_id=ids[0])
            elif ids and g == a:
                # a repaired defect is back in the tree under test: one violation per defect, shortest input
                add("property", ids[0], t, "c14n.CanonicalJSON(%r) = %r: %s; specified: %r (repaired defect %s is present in this tree)"
                    % (t, g, clause, exp, ids[0]),
                    {"case": t.decode("latin1"), "stream": stream, "implementation": g, "specification": exp, "clause": clause,
                     "finding": ids[0], "rerun": "echo '%s' | bin/vharness" % line(t)}, fid=ids[0])
            else:
                add("property", clause[:48], t, "c14n.CanonicalJSON(%r) = %r: %s; specified: %r" % (t, g, clause, exp),
                    {"case": t.decode("latin1"), "stream": stream, "implementation": g, "specification": exp, "clause": clause,
                     "rerun": "echo '%s' | bin/vharness" % line(t)})
        verdicts[i] = (g, okg)
    # (4) the three syntaxes of one value canonicalise identically
    for gi, (v, ts) in enumerate(groups):
        idx = [i for i, g in gidx.items() if g == gi] if False else None
    by_group = {}
    for i, gi in gidx.items():
        by_group.setdefault(gi, []).append(i)
    for gi, idxs in by_group.items():
        rs = {go[i] for i in idxs}
        if len(rs) > 1 and all(verdicts[i][1] for i in idxs):
            t = min((cases[i][1] for i in idxs), key=len)
            add("property", "syntax-dependence", t, "renderings of one value canonicalise differently: %r" % ([cases[i][1] for i in idxs],),
                {"case": [cases[i][1].decode("latin1") for i in idxs], "implementation": sorted(map(repr, rs)), "clause": "canonical form is a function of the content"})

    c.cov["result_kinds"] = kinds
    c.cov["rule"] = ("cases = JSON texts: every sampled Unicode scalar value and every ASCII control character as a one-character string and as a "
                     "one-character key (thorough: all 1,112,064 scalar values), ordered key pairs over a 160-key alphabet, integers at the int64 and "
                     "power-of-ten/two boundaries, a decimal-mantissa x exponent grid of either sign and random/half-way decimals, float zeros of either sign, random values nested "
                     "to depth 6 each in 3 concrete syntaxes, and malformed texts (truncation at every byte, trailing data, corruption, bad escapes, "
                     "invalid UTF-8); distinct = distinct texts per stream; non-trivial = every text (each is judged by P and compared with the model)")
    for s in ("single-char-string", "key-pair", "decimal-grid", "nested-3-syntaxes", "malformed-truncation"):
        for st, t in cases:
            if st == s:
                c.sample({"stream": s, "case": t.decode("latin1")[:120]}, limit=8)
                break
    # interesting counters must not be zero
    for need in ("single-char-string", "single-char-key", "key-pair", "integer", "decimal-grid", "decimal-random", "float-zero", "nested-3-syntaxes",
                 "malformed-truncation", "malformed-trailing", "malformed-corrupted"):
        if not c.cov["streams"].get(need, {}).get("evaluations"):
            c.report("generator stream %s produced no case" % need, {"machinery": need}, no_input=True)
    if kinds.get("ok", 0) < len(cases) // 4 or sum(v for k, v in kinds.items() if k.startswith("err")) < len(cases) // 20:
        c.report("generated cases are not spread over accepted and rejected texts: %r" % kinds, {"machinery": "distribution"}, no_input=True)

    # vm_compute cross-check of the extraction on a sample
    samp = [line(t, flags) for _, t in cases[:: max(1, len(cases) // 200)] if len(t) < 80][:200]
    try:
        inq = coq_eval(samp)
        mo_s = run_oracle(samp, shards=1)
        bad = [(l, x, y) for l, x, y in zip(samp, inq, mo_s) if x != y]
        c.cov["vm_compute_crosscheck"] = {"cases": len(samp), "differences": len(bad)}
        if bad:
            c.report("extracted model disagrees with vm_compute: %r" % (bad[0],), {"machinery": bad[0]}, no_input=True)
    except Exception as e:
        c.report("vm_compute cross-check failed: %r" % e, {"machinery": repr(e)}, no_input=True)

    order = {"property": 0, "correspondence": 1, "model-vs-spec": 2}
    for (kind, key, fid), (t, msg, replay, _, n) in sorted(viol.items(), key=lambda kv: (order[kv[0][0]], len(kv[1][0]))):
        replay["cases_like_this"] = n
        c.report(msg + " (%d cases)" % n, replay, no_input=(kind == "model-vs-spec"))
    if not proved:
        pr = c.proof
        c.report("proof obligations of Props/C07.v no longer check: " + (pr.get("make_log") or pr.get("log", ""))[-600:],
                 {"theorem": "rocq/Props/C07.v", "failed_files": pr.get("failed_files"), "forbidden": pr.get("forbidden")},
                 no_input=not viol)


def replay(path):
    r = json.load(open(path))["replay"]
    cs = r.get("case")
    if cs is None:
        print("no input in this replay:", r)
        return 0
    build_harness()
    for t in (cs if isinstance(cs, list) else [cs]):
        t = t.encode("latin1")
        print("input:          %r" % t)
        print("implementation:", res(run_go([line(t)], shards=1)[0]))
        print("model (unfixed):", res(run_oracle([line(t, 0)], shards=1)[0]))
        print("model (signed zero, configuration 31):", res(run_oracle([line(t, 31)], shards=1)[0]))
        print("model (fixed):  ", res(run_oracle([line(t, FIXED)], shards=1)[0]))
        k, v = py_parse(t)
        try:
            print("specification:  ", spec_canon(pnorm(v)).encode() if k == "ok" else "reject (%s)" % (v,))
        except OverflowError:
            print("specification:   reject (number out of range)")
    return 0
