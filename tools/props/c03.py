"""C03 - under currency rounding every presented amount re-adds exactly.
Oracle P needs no model: it recomputes every identity from the figures the implementation presents.
The calculation itself is tied to Calc/Calc.v exactly as in C01 (same three-way comparison)."""
from fractions import Fraction
from vlib import *
import calcgen as cg
import c01

TRUSTED = c01.TRUSTED


def q(a):
    return None if a == [] else Fraction(a[0], 10 ** a[1])


def rha_q(x, c):
    n = x * 10 ** c
    return Fraction(cg.rha(n.numerator, n.denominator), 10 ** c)


def identities(doc, t, rounding=None):
    """list of (clause, detail) that fail on the presented figures t (projected layout)."""
    cc, cur, c, rr, date = cg.doc_meta(doc)
    bad = []
    late = []        # presentation of totals.rounding itself: listed after the identities
    if rounding is None:
        # the rounding the identity speaks of is the PRESENTED totals.rounding (projection index 17): the supplied
        # value rounded half away from zero to the currency's decimals
        pr = t[17] if len(t) > 17 else []
        supplied = (doc.get("totals") or {}).get("rounding")
        if supplied is not None:
            want = rha_q(cg.parse(supplied).q(), c)
            if pr == [] or q(pr) != want:
                late.append(("totals.rounding is presented as the supplied value rounded to the currency", "%s supplied, %s presented, %s expected" % (supplied, pr, want)))
            if pr != [] and pr[1] != c:
                late.append(("no figure carries more decimals than the currency", "totals.rounding %s" % pr))
        elif pr != []:
            late.append(("totals.rounding is presented only when supplied", str(pr)))
        rounding = None if pr == [] else q(pr)
    z = Fraction(0)
    lines = t[0]
    for i, l in enumerate(lines):
        price_e = l[0][1]
        s, tot = q(l[1]), q(l[2])
        ds, cs = [q(x) for x in l[3]], [q(x) for x in l[4]]
        if tot != s - sum(ds, z) + sum(cs, z):
            bad.append(("line total = sum - discounts + charges", "line %d: %s != %s - %s + %s" % (i, tot, s, ds, cs)))
        for a in [l[1], l[2]] + l[3] + l[4]:
            if a[1] > max(c, price_e):
                bad.append(("no line figure carries more decimals than the currency or the item price", "line %d: %s" % (i, a)))
    sm, disc, ch, inc, total, tax, twt, payable, adv, due = [q(x) for x in t[1:11]]
    if sm != sum((q(l[2]) for l in lines), z):
        bad.append(("sum = sum of line totals", "%s" % sm))
    if total != sm - (disc or z) + (ch or z) - (inc or z):
        bad.append(("total = sum - discount + charge - tax included", "%s != %s - %s + %s - %s" % (total, sm, disc, ch, inc)))
    # (totals.discount / totals.charge against the individual document rows is not part of the statement:
    #  rows with an explicit base are presented at the base's own precision)
    tsum = z
    for ct in t[15]:
        ca, cs_ = q(ct[3]), q(ct[4])
        ra, rs = z, z
        anysur = False
        for g in ct[2]:
            pct, sur, base, am, sam = q(g[2]), q(g[3]), q(g[4]), q(g[5]), q(g[6])
            if pct is not None and am != rha_q(pct * base, c):
                bad.append(("rate amount = percent of presented base rounded to the currency", "%s: %s != %s x %s" % (ct[0], am, pct, base)))
            if pct is None and am != 0:
                bad.append(("exempt group has no amount", "%s" % am))
            if sur is not None:
                anysur = True
                if sam != rha_q(sur * base, c):
                    bad.append(("surcharge amount = surcharge percent of presented base", "%s: %s != %s x %s" % (ct[0], sam, sur, base)))
                rs += sam
            ra += am
        if ca != ra:
            bad.append(("category amount = sum of its rate amounts", "%s: %s != %s" % (ct[0], ca, ra)))
        if anysur and cs_ != rs:
            bad.append(("category surcharge = sum of its rate surcharges", "%s: %s != %s" % (ct[0], cs_, rs)))
        tsum += -(ca + (cs_ or z)) if ct[1] else (ca + (cs_ or z))
    if t[15]:
        if q(t[16]) != tsum:
            bad.append(("tax sum adds ordinary categories and subtracts retained ones", "%s != %s" % (q(t[16]), tsum)))
        if tax != tsum:
            bad.append(("totals.tax = tax sum", "%s != %s" % (tax, tsum)))
    if twt != total + tax:
        bad.append(("total with tax = total + tax", "%s != %s + %s" % (twt, total, tax)))
    rnd = Fraction(0) if rounding is None else rounding
    if payable != twt + rnd:
        bad.append(("payable = total with tax + rounding", "%s != %s + %s" % (payable, twt, rnd)))
    if adv is not None:
        if due != payable - adv:
            bad.append(("due = payable - advances", "%s != %s - %s" % (due, payable, adv)))
    for a in list(t[1:11]) + t[13] + t[14]:
        if a != [] and a[1] > c:
            bad.append(("no figure carries more decimals than the currency", str(a)))
    for a in t[11] + t[12]:
        if a != [] and a[1] > c:
            bad.append(("no figure carries more decimals than the currency", "discount/charge row %s" % a))
    return bad + late


def rate_charge_excess(doc):
    """line charge given by rate x quantity whose rate has more decimals than the currency"""
    c = cg.doc_meta(doc)[2]
    for l in doc["lines"]:
        for sl in [l] + l.get("breakdown", []):
            for x in sl.get("charges", []):
                if "rate" in x and cg.parse(x["rate"]).e > c:
                    return True
    return False


def base_excess(doc):
    """document-level percentage discount/charge with an explicit base of more decimals than the currency
    (the row is presented at the base's own precision)"""
    c = cg.doc_meta(doc)[2]
    return any("base" in x and cg.parse(x["base"]).e > c for k in ("discounts", "charges") for x in doc.get(k, []))


def witness_docs():
    """findings/C03.json C03-supplied-rounding-extra-decimals: ES invoice in EUR under the currency rule, 2 x 100.00 at the
    standard VAT rate, with a supplied totals.rounding of more decimals than the currency (a tie, a value rounding to zero,
    one rounding down), of fewer, and a negative tie."""
    out = []
    for r in ("0.005", "-0.004", "0.0149", "1", "-0.005"):
        d = c01._base_doc()
        d["tax"] = {"rounding": cg.CURRENCY}
        d["lines"] = [{"quantity": "2", "item": {"name": "x", "price": "100.00"}, "taxes": [{"cat": "VAT", "rate": "standard"}]}]
        d["totals"] = {"rounding": r}
        out.append(d)
    return out


def run(c):
    quick = c.tier == "quick"
    if not std_builds(c):
        return
    cg.reset_tables()
    proved = c.prove()
    ok, out = build_oracle()
    if not ok:
        c.report("extraction/oracle build failed: " + out[-800:], {"machinery": "oracle"}, no_input=True)
        return
    # corpus first: the recorded witnesses (findings/C03.json)
    wres = cg.run3(witness_docs())
    c01.judge(c, wres, "corpus", prop="C03")
    for r in wres:
        if not r["in_domain"] or is_err(r["go"]) or r["go"][0] != b"ok":
            c.report("corpus document does not calculate", {"document": r["doc"], "implementation": r["go_raw"]})
            continue
        c.count("identities-corpus", 1, json.dumps(r["doc"], sort_keys=True))
        bad = identities(r["doc"], r["go"][1])
        if bad:
            c.report("presented figures do not re-add under the currency rule: %s (%s)" % bad[0],
                     {"document": r["doc"], "implementation": r["go_raw"], "clause": bad[0][0], "all_failures": bad[:6]})
    g = cg.Gen(c.rng)
    g.doc_types = True      # a share of the documents as bill/order and bill/delivery
    g.calc_only = True      # combos that calculate but would not validate (rate key under a country without regime)
    n = 5000 if quick else 250000
    docs = []
    for i in range(n):
        k = i % 3
        if k == 0:
            docs.append(g.doc(c03=True, force_rule=cg.CURRENCY))
        elif k == 1:
            d = g.doc(c03=True, regimes=("EL",))     # regime default
            (d.get("tax") or {}).pop("rounding", None)
            if "tax" in d and not d["tax"]:
                del d["tax"]
            docs.append(d)
        else:
            docs.append(g.doc(c03=True, force_rule=cg.CURRENCY, big=(i % 30 == 2)))
    shown = 0
    viol = 0
    for i in range(0, len(docs), 20000):
        res = cg.run3(docs[i:i + 20000])
        c01.judge(c, res, "currency-rule", prop="C03")
        for r in res[:1]:
            c.sample({"document": r["doc"], "implementation": r["go_raw"][:300]}, limit=3)
        for r in res:
            if not r["in_domain"] or is_err(r["go"]) or r["go"][0] != b"ok":
                continue
            bad = identities(r["doc"], r["go"][1])
            c.count("identities", 1, json.dumps(r["doc"], sort_keys=True))
            if not bad:
                continue
            viol += 1
            fid = None
            if fid or shown < 3:
                if not fid:
                    shown += 1
                    def fails(d):
                        x = cg.run3([d])[0]
                        return x["in_domain"] and not is_err(x["go"]) and x["go"][0] == b"ok" and bool(identities(d, x["go"][1])) \
                            and cg.doc_meta(d)[3] == cg.CURRENCY
                    small = cg.shrink_doc(r["doc"], fails)
                    x = cg.run3([small])[0]
                    bad = identities(small, x["go"][1])
                    c.report("presented figures do not re-add under the currency rule: %s (%s)" % bad[0],
                             {"document": small, "implementation": x["go_raw"], "clause": bad[0][0], "all_failures": bad[:6]})
                else:
                    c.report("presented figures do not re-add under the currency rule: %s (%s)" % bad[0],
                             {"document": r["doc"], "clause": bad[0][0]}, finding_id=fid)
    # ---- derived documents: RemoveIncludedTaxes re-derives prices and line-level fixed amounts with two more decimals,
    # document-level fixed discounts / charges at the precision they are presented with (repair C17-rit-not-a-fixpoint), and
    # recalculates; what it hands back is a document calculated under the currency rule like any other
    rdocs = []
    tries = 0
    while len(rdocs) < (1200 if quick else 40000) and tries < 400000:
        tries += 1
        d = g.doc(c03=True, force_rule=cg.CURRENCY)
        if (d.get("tax") or {}).get("prices_include") and d.get("$schema", "").endswith("/invoice") or \
           ((d.get("tax") or {}).get("prices_include") and "$schema" not in d):
            rdocs.append(d)
    shown = 0
    for r in cg.run3(rdocs, prefix="c17", op_="rit"):
        if is_err(r["go"]) or r["go"][0] != b"ok":
            continue
        t = r["go"][1]
        c.count("identities-after-remove-included-taxes", 1, json.dumps(r["doc"], sort_keys=True))
        bad = identities(r["doc"], t, rounding=q(t[8]) - q(t[7]))     # the residue RemoveIncludedTaxes records is C17's subject
        if bad and shown < 3:
            shown += 1
            def fails(d):
                x = cg.run3([d], prefix="c17", op_="rit")[0]
                return not is_err(x["go"]) and x["go"][0] == b"ok" and cg.doc_meta(d)[3] == cg.CURRENCY and \
                    bool(identities(d, x["go"][1], rounding=q(x["go"][1][8]) - q(x["go"][1][7])))
            small = cg.shrink_doc(r["doc"], fails)
            x = cg.run3([small], prefix="c17", op_="rit")[0]
            bad = identities(small, x["go"][1], rounding=q(x["go"][1][8]) - q(x["go"][1][7]))
            c.report("after RemoveIncludedTaxes the presented figures do not re-add under the currency rule: %s (%s)" % bad[0],
                     {"document": small, "operation": "Invoice.RemoveIncludedTaxes (c17 rit)", "implementation": x["go_raw"],
                      "clause": bad[0][0], "all_failures": bad[:6]})
    c.cov["rule"] = ("invoices under the 'currency' rule (explicit, or by the EL regime default), input variety of C01 with fixed discount, charge and advance "
                     "amounts supplied at the currency's precision, tax-included prices and prices with more decimals than the currency; every identity of the "
                     "statement is recomputed from the implementation's presented figures; distinct = distinct documents inside the 2^52 domain")
    c.cov["documents_with_failing_identity"] = viol
    if not proved:
        pr = c.proof
        c.report("proof obligations of Props/C03.v no longer check: " + (pr.get("make_log") or pr.get("log", ""))[-600:],
                 {"theorem": "rocq/Props/C03.v", "failed_files": pr.get("failed_files"), "forbidden": pr.get("forbidden")}, no_input=True)


def replay(path):
    r = json.load(open(path))["replay"]
    build_harness()
    if r.get("operation"):
        x = cg.run3([r["document"]], prefix="c17", op_="rit")[0]
        print("implementation (after RemoveIncludedTaxes):", x["go_raw"])
        t = x["go"][1]
        print("failing identities:", identities(r["document"], t, rounding=q(t[8]) - q(t[7])))
        return 0
    x = cg.run3([r["document"]])[0]
    print("implementation:", x["go_raw"])
    print("model:         ", x["model_raw"])
    if not is_err(x["go"]) and x["go"][0] == b"ok":
        print("failing identities:", identities(r["document"], x["go"][1]))
    return 0
