"""C04 - calculation is a deterministic fixpoint and serialisation is lossless.
Breadth over every example and generated documents is by running the implementation (calc -> marshal ->
parse -> calc -> marshal, three rounds, byte comparison; parse -> marshal identity; read-only operations;
two processes with different GOMAXPROCS); the calculation core's fixpoint is tied to Calc/Symmetry.v
(as_input) by correspondence."""
import copy
import subprocess
from vlib import *
import calcgen as cg
import c01
import c20
import c04norm
import c04typed
import c04ext

TRUSTED = c01.TRUSTED + ["map-iteration order and process independence are sampled by repetition (runtime behaviour the model cannot exhibit)"]


def examples():
    p = subprocess.run([os.path.join(BIN, "vharness"), "examples", REPO], stdout=subprocess.PIPE, text=True, env=GOENV)
    out = []
    for l in p.stdout.splitlines():
        v = parse_wire(l)
        if len(v) == 2:
            out.append((v[0].decode(), v[1]))
    return out


def dirty(x, key=None, mode=0):
    """texts of a document padded / case-mixed / punctuated; numbers, dates, urls, e-mails and the schema members untouched"""
    if isinstance(x, dict):
        return {k: (v if k in ("$schema", "uuid", "$regime", "$addons", "$tags") else dirty(v, k, mode)) for k, v in x.items()}
    if isinstance(x, list):
        return [dirty(v, key, mode) for v in x]
    if isinstance(x, str):
        import re as _re
        if _re.fullmatch(r"-?\d+(\.\d+)?%?", x) or _re.fullmatch(r"\d{4}-\d\d-\d\d.*", x) or x.startswith("http") or "@" in x:
            return x
        return ["  " + x + "  ", x.lower() + " - " + x.upper(), x[:1] + " . " + x[1:] + "#"][mode]
    return x


def run_env(lines, gomaxprocs):
    env = dict(GOENV, GOMAXPROCS=str(gomaxprocs))
    p = subprocess.run([os.path.join(BIN, "vharness")], input="\n".join(lines) + "\n", stdout=subprocess.PIPE, text=True, env=env, timeout=1200)
    return p.stdout.splitlines()


def _ph(c, n):
    import time
    now = time.time()
    ph = c.cov.setdefault("phase_seconds", {})
    last = getattr(c, "_ph_last", None)
    if last:
        ph[last[0]] = round(now - last[1], 1)
    c._ph_last = ("phase-%d" % n, now)


def run(c):
    quick = c.tier == "quick"
    if not std_builds(c):
        return
    cg.reset_tables()
    proved = c.prove()
    ok, out = build_oracle()
    if not ok:
        c.report("extraction/oracle build failed: " + out[-800:], {"machinery": "oracle"}, no_input=True)
        return
    shown = 0
    _ph(c, 1)
    # ---- non-numeric half: normalisers, scenario notes, map order, leaf codecs (model correspondence + direct judgement) ----
    c04norm.run_all(c, quick)
    _ph(c, 2)
    # ---- corpus: the documents of repaired fixpoint defects (findings/C04.json `fixed`) ----
    import glob as _g0
    cfiles = sorted(_g0.glob(os.path.join(VERIF, "corpus", "C04", "*.json")))
    for f, r in zip(cfiles, run_go(["c04 fix " + w(open(f, "rb").read()) for f in cfiles]) if cfiles else []):
        v = parse_wire(r)
        c.count("corpus", 1, f)
        if v and isinstance(v[0], list) and v[0] and v[0][0] == b"diff":
            c.report("corpus document %s: repeating serialise/parse/calculate changes the document at %s (round %s)" % (os.path.basename(f), v[0][2].decode(), v[0][1]),
                     {"corpus": os.path.relpath(f, VERIF), "result": r, "clause": "calculate -> serialise -> parse -> calculate yields byte-identical JSON"})
        elif is_err(v):
            c.report("corpus document %s no longer calculates: %s" % (os.path.basename(f), r[:200]), {"corpus": os.path.relpath(f, VERIF), "result": r}, no_input=True)
    # ---- every example ----
    exs = examples()
    if len(exs) < 50:
        c.report("example files not found", {"machinery": "examples"}, no_input=True)
    res = run_go(["c04 fix " + w(d) for _, d in exs])
    for (path, data), r in zip(exs, res):
        v = parse_wire(r)
        c.count("examples-fixpoint", 1, path)
        if v and isinstance(v[0], list) and v[0] and v[0][0] == b"diff":
            c.report("example %s: repeating serialise/parse/calculate changes the document at %s (round %s)" % (path, v[0][2].decode(), v[0][1]),
                     {"example": path, "result": r, "clause": "calculate -> serialise -> parse -> calculate yields byte-identical JSON"})
    _ph(c, 3)
    # ---- rich synthetic documents: every member of every registered type populated (harness/c14rich.go), as generated
    # and with "dirty" texts (padding, mixed case, stray punctuation) so that the normalisers of rarely used members
    # (telephones, e-mails, identities, addresses, inboxes, registration ...) have something to do
    rich = os.path.join(WORK, "c14rich")
    subprocess.run([os.path.join(BIN, "vharness"), "c14rich", rich], stdout=subprocess.PIPE, stderr=subprocess.PIPE, env=GOENV)
    _ph(c, 4)
    # ---- serialisation half: encoding/json on the repository's types against the typed-marshalling model ----
    c04typed.run_all(c, quick, rich)
    import glob as _glob
    rl, rn = [], []
    for f in sorted(_glob.glob(os.path.join(rich, "rich-*.json"))):
        try:
            d = json.load(open(f))
        except ValueError:
            continue
        for mode in (None, 0, 1, 2):
            rl.append("c04 fix " + w(json.dumps(d if mode is None else dirty(d, None, mode))))
            rn.append((os.path.basename(f), mode))
    for (name, mode), r in zip(rn, run_go(rl)):
        v = parse_wire(r)
        c.count("rich-fixpoint", 1, (name, mode))
        if v and isinstance(v[0], list) and v[0] and v[0][0] == b"diff" and shown < 6:
            shown += 1
            c.report("rich document %s (text variant %s): repeating serialise/parse/calculate changes it at %s (round %s)" % (name, mode, v[0][2].decode(), v[0][1]),
                     {"rich_document": name, "variant": mode, "result": r, "rerun": "bin/vharness c14rich work/c14rich",
                      "clause": "calculate -> serialise -> parse -> calculate yields byte-identical JSON (normalisers are idempotent)"})
    _ph(c, 50)
    # ---- extension-only inputs, each calculated several times in one process (tools/props/c04ext.py): every extension key and
    # value of every regime / add-on / catalogue at every ext position of invoice, order, delivery and payment
    c04ext.run_all(c, quick, rich)
    _ph(c, 5)
    # ---- noisy leaves: every string position of the four main rich documents (made valid) given, one at a time, texts that
    # normalisers take apart in stages: what a pass leaves behind must not be something the next pass rewrites again
    import richvalid
    NOISE = ["user@example.com ", "foo!example.com", "0088:0192:123", " a  b ", "A--B", "x:y:z", "Á é", "+34 600 00", "#1", "a/b\\c", "1.2.3-", "(x)",
             "AB1234:xyz", "www.example.com", "A&B", " 001 ", "x\ty", "ES ES", "a@b", "0192:123"]
    nl, nn = [], []
    rot = c.seed % 10
    for f in sorted(_glob.glob(os.path.join(rich, "rich-bill-*.json"))):
        bn = os.path.basename(f)
        if "+" in bn or not any(k in bn for k in ("bill-invoice", "bill-order", "bill-delivery.", "bill-payment.")):
            continue
        base_d = richvalid.make_valid(json.load(open(f)))
        seen_p = set()

        def walk_(x, path):
            if isinstance(x, dict):
                for k, v in x.items():
                    if not k.startswith("$") and k != "uuid":
                        yield from walk_(v, path + [k])
            elif isinstance(x, list):
                for i, v in enumerate(x):
                    yield from walk_(v, path + [i])
            elif isinstance(x, str):
                yield path
        for pth in walk_(base_d, []):
            gp = tuple("*" if isinstance(x, int) else x for x in pth)
            if gp in seen_p:
                continue
            seen_p.add(gp)
            for j, nv in enumerate(NOISE):
                if quick and (sum(map(ord, "/".join(map(str, gp)))) + j) % 10 != rot and not (nv == "ES ES" and gp[-2:] == ("tax_id", "code") and gp[0] == "supplier"):
                    continue
                m = json.loads(json.dumps(base_d))
                t = m
                for x in pth[:-1]:
                    t = t[x]
                t[pth[-1]] = nv
                nl.append("c04 fix " + w(json.dumps(m)))
                nn.append((bn, "/".join(map(str, pth)), nv))
    for (bn, pth, nv), r in zip(nn, run_go(nl, shards=16)):
        v = parse_wire(r)
        c.count("noisy-leaf-fixpoint", 1, (bn, pth, nv))
        if v and isinstance(v[0], list) and v[0] and v[0][0] == b"diff":
            import re as _re2
            cleaned = _re2.sub(r"[^A-Z0-9]", "", nv.upper())
            # narrow matcher of C04-doubled-country-prefix: a tax identity code that, once cleaned, still starts with
            # the country code after ONE prefix has been stripped (tax.NormalizeIdentity strips one per calculation)
            fid = "C04-doubled-country-prefix" if (pth.endswith("tax_id/code") and cleaned.startswith("ESES") and v[0][2].decode().endswith("tax_id/code")) else None
            if fid is None and shown >= 9:
                continue
            if fid is None:
                shown += 1
            c.report("%s with %r at %s: repeating serialise/parse/calculate changes the document at %s (round %s)" % (bn, nv, pth, v[0][2].decode(), v[0][1]),
                     {"rich_document": bn, "path": pth, "value": nv, "result": r,
                      "clause": "calculate -> serialise -> parse -> calculate yields byte-identical JSON (normalisers settle in one pass)"}, finding_id=fid)
    _ph(c, 6)
    # ---- defaults: every example input and rich document with ONE optional member removed (top level and one level below):
    # whatever calculation fills in for the missing member must already be there after the first calculation
    dl, dn = [], []
    srcs = []
    for path, data in exs:
        if "/out/" in path:
            continue
        try:
            srcs.append((path, json.loads(data)))
        except ValueError:
            pass                        # yaml inputs are covered through their json twins under out/
    for f in sorted(_glob.glob(os.path.join(rich, "rich-bill-*.json"))):
        srcs.append((os.path.basename(f), json.load(open(f))))
    seen_del = set()
    for name, d in srcs:
        body = d.get("doc") if isinstance(d.get("doc"), dict) and "$schema" in d.get("doc", {}) else d
        if not isinstance(body, dict):
            continue
        sch = body.get("$schema", "")
        cands = [(k,) for k in body if not k.startswith("$")]
        cands += [(k, k2) for k in body if isinstance(body[k], dict) for k2 in body[k]]
        for cpath in cands:
            key = (sch, tuple(body.get("$addons") or ()), cpath)
            if quick and key in seen_del:
                continue
            seen_del.add(key)
            b2 = json.loads(json.dumps(body))
            t = b2
            for k in cpath[:-1]:
                t = t[k]
            del t[cpath[-1]]
            dl.append("c04 fix " + w(json.dumps(b2)))
            dn.append((name, "/".join(cpath)))
    for (name, cpath), r in zip(dn, run_go(dl, shards=16)):
        v = parse_wire(r)
        c.count("defaults-fixpoint", 1, (name, cpath))
        if v and isinstance(v[0], list) and v[0] and v[0][0] == b"diff" and shown < 9:
            shown += 1
            c.report("%s without its member %s: repeating serialise/parse/calculate changes the document at %s (round %s)" % (name, cpath, v[0][2].decode(), v[0][1]),
                     {"source": name, "removed_member": cpath, "result": r,
                      "clause": "calculate -> serialise -> parse -> calculate yields byte-identical JSON (defaults are applied before they are read)"})
    outs = [(p, d) for p, d in exs if "/out/" in p]
    res = run_go(["c04 readonly " + w(d) for _, d in outs])
    for (path, data), r in zip(outs, res):
        v = parse_wire(r)
        c.count("readonly-ops", 1, path)
        if v and isinstance(v[0], list) and v[0] and v[0][0] == b"changed":
            c.report("validate/digest/verify/extract changed envelope %s at %s" % (path, v[0][1].decode()),
                     {"example": path, "clause": "validating, digesting, verifying or extracting never changes an envelope"})
    _ph(c, 7)
    # ---- generated invoices and payments ----
    g = cg.Gen(c.rng)
    g.calc_only = True      # combos that calculate but would not validate (rate key under a country without regime)
    g.sub_currency = True   # sub-lines (breakdown, substituted) whose items are priced in another currency (exchange rate / alt price), any precision
    n = 3000 if quick else 150000
    docs = [d for d in (g.doc() for _ in range(n)) if cg.in_domain(d)[0]]
    base = cg.run3(docs)
    c01.judge(c, base, "calc", prop="C04")
    rec = cg.run3(docs, prefix="c17", op_="recalc")
    # (the generator's private annotations - keys starting with '_' - are not part of the document: gobl.Parse refuses them)
    fx = run_go(["c04 fix " + w(json.dumps(cg.strip_notes(d))) for d in docs])
    for d, r0, r1, f in zip(docs, base, rec, fx):
        c.count("generated-fixpoint", 1, json.dumps(d, sort_keys=True))
        if any("currency" in sl["item"] for l in d["lines"] for sl in l.get("breakdown", []) + l.get("substituted", [])):
            c.count("generated-fixpoint-subline-currency", 1, json.dumps(d, sort_keys=True))
        if not is_err(parse_wire(f)):
            c.count("generated-fixpoint-bytes", 1, json.dumps(d, sort_keys=True))     # calculated: the three byte-compared rounds really ran
        if r1["go"] != r1["model"]:
            if shown < 3:
                shown += 1
                c.report("correspondence broken: recalculation of a calculated document in the model (as_input) differs from the implementation",
                         {"correspondence": "corr:C04:recalc", "document": d, "implementation": r1["go_raw"], "model": r1["model_raw"]}, no_input=True)
            continue
        v = parse_wire(f)
        differs = bool(v) and isinstance(v[0], list) and v[0] and v[0][0] == b"diff"
        if differs or (not is_err(r0["go"]) and r0["go"] != r1["go"]):
            fid = "C04-excess-decimals-feed-back" if (not is_err(r0["go"]) and cg.excess_fixed(d, r0["py"])) else None
            if fid or shown < 3:
                if not fid:
                    shown += 1
                where = v[0][2].decode() if differs else "figures"
                c.report("recalculating a calculated document changes it (%s)" % where,
                         {"document": d, "result": f, "first": r0["go_raw"], "second": r1["go_raw"],
                          "clause": "serialising the result, parsing it back and calculating again yields byte-identical JSON"}, finding_id=fid)
    # ---- RemoveIncludedTaxes then calculate again changes nothing (findings/C17.json C17-rit-not-a-fixpoint): the witness first,
    # then every generated document whose prices include tax; ops rit / rit2 of harness/c17.go and Run/RunC17.v
    import c17 as _c17
    rdocs = copy.deepcopy(_c17.RIT_CORPUS) + [d for d, r0 in zip(docs, base) if (d.get("tax") or {}).get("prices_include") and not is_err(r0["go"]) and r0["go"][0] == b"ok"]
    r1s = cg.run3(rdocs, prefix="c17", op_="rit")
    r2s = cg.run3(rdocs, prefix="c17", op_="rit2")
    rshown = 0
    for d, r1, r2 in zip(rdocs, r1s, r2s):
        c.count("rit-fixpoint", 1, json.dumps(d, sort_keys=True))
        if r2["go"] != r2["model"]:
            c.report("correspondence broken: RemoveIncludedTaxes followed by a calculation in the model differs from the implementation",
                     {"correspondence": "corr:C17:rit2", "document": d, "implementation": r2["go_raw"], "model": r2["model_raw"]}, no_input=True)
            break
        if is_err(r1["go"]):
            continue        # refusals are C17's subject
        if r2["go"] != r1["go"] and rshown < 3:
            rshown += 1
            c.report("the document RemoveIncludedTaxes returns changes when it is calculated again",
                     {"document": d, "operation": "c17 rit2", "after_remove_included_taxes": r1["go_raw"], "recalculated": r2["go_raw"],
                      "clause": "the result of RemoveIncludedTaxes is a fixpoint of calculation"})
    _ph(c, 8)
    # ---- normalisers: codes and series with runs of separators / symbols must settle in one calculation ----
    junk = []
    alphabet = ["A", "b", "1", "7", " ", " ", "-", ".", "/", "#", "_", ":", "$", "  ", " - ", "\t"]
    for d in docs[: (600 if quick else 20000)]:
        d2 = json.loads(json.dumps(cg.strip_notes(d)))
        mk = lambda: "X" + "".join(c.rng.choice(alphabet) for _ in range(c.rng.randint(2, 8))) + "9"
        d2["series"] = mk()
        d2["code"] = mk()
        if c.rng.random() < 0.5:
            d2["supplier"].setdefault("addresses", [{"locality": "M", "country": "ES"}])[0]["code"] = mk()
        for l in d2["lines"][:2]:
            l["item"]["ref"] = mk()
        d2.setdefault("preceding", [{"code": mk(), "series": mk(), "issue_date": "2022-01-01"}])
        junk.append(d2)
    fx = run_go(["c04 fix " + w(json.dumps(d)) for d in junk])
    for d, f in zip(junk, fx):
        c.count("normaliser-fixpoint", 1, json.dumps(d, sort_keys=True))
        v = parse_wire(f)
        if not is_err(v):
            c.count("normaliser-fixpoint-bytes", 1, json.dumps(d, sort_keys=True))
        if v and isinstance(v[0], list) and v[0] and v[0][0] == b"diff":
            r0 = cg.run3([d])[0]
            if not is_err(r0["go"]) and cg.excess_fixed(d, r0["py"]):
                continue
            if shown < 6:
                shown += 1
                c.report("normalisation is not idempotent: recalculating changes %s" % v[0][2].decode(),
                         {"document": d, "result": f, "clause": "serialising, parsing back and calculating again yields byte-identical JSON (normalisers are idempotent)"})
    pays = c20.gen_payments(c, c.rng, n // 4)
    fx = run_go(["c04 fix " + w(json.dumps(p)) for p, _ in pays])
    for (p, _), f in zip(pays, fx):
        c.count("payments-fixpoint", 1, json.dumps(p, sort_keys=True))
        v = parse_wire(f)
        if v and isinstance(v[0], list) and v[0] and v[0][0] == b"diff" and shown < 6:
            shown += 1
            c.report("recalculating a payment changes it at %s" % v[0][2].decode(), {"payment": p, "result": f,
                     "clause": "serialising the result, parsing it back and calculating again yields byte-identical JSON"})
    _ph(c, 9)
    # ---- history independence: the same workloads (examples, synthetic invoices per regime / addon / rate key incl. the
    # legacy spellings found in the regimes' own files) calculated in a seeded order and in the reverse order, each in a
    # fresh process: a document's calculated JSON must not depend on what the process calculated before it
    eq = {}
    for mode in ("fwd", "rev"):
        p_ = subprocess.run([os.path.join(BIN, "vharness"), "c15equiv", REPO, str(c.seed), "40", mode], stdout=subprocess.PIPE, stderr=subprocess.PIPE,
                            text=True, env=GOENV, timeout=1800)
        eq[mode] = dict(l.split("\t", 1) for l in p_.stdout.splitlines() if "\t" in l)
    nd = 0
    for k_ in sorted(eq["fwd"]):
        c.count("history-independence", 1, k_)
        if eq["fwd"][k_] != eq["rev"].get(k_):
            nd += 1
            if nd <= 3:
                c.report("the calculated result of %s depends on which documents the process calculated before it (%s / %s)" % (k_, eq["fwd"][k_], eq["rev"].get(k_)),
                         {"workload": k_, "clause": "byte-identical JSON regardless of process, repetition or map iteration order",
                          "rerun": "for m in fwd rev; do bin/vharness c15equiv %s %d 40 $m | grep -F '%s'; done" % (REPO, c.seed, k_)})
    _ph(c, 10)
    # ---- process / GOMAXPROCS independence (sampling) ----
    sample = [d for _, d in exs if True][: (60 if quick else 10 ** 6)] + [json.dumps(cg.strip_notes(d)).encode() for d in docs[: (200 if quick else 5000)]]
    lines = ["c04 build " + w(d) for d in sample]
    a = run_env(lines, 1)
    b = run_env(lines, 16)
    b2 = run_env(lines, 16)
    for l, x, y, z in zip(lines, a, b, b2):
        c.count("process-independence", 1, l)
        if not (x == y == z) and shown < 9:
            shown += 1
            c.report("the same document built in separate processes (GOMAXPROCS 1 / 16) serialises differently",
                     {"input": l[:4000], "clause": "regardless of process, repetition or map iteration order"})
    for d in docs[:2]:
        c.sample({"document": d}, limit=2)
    c.sample({"examples": [p for p, _ in exs[:5]]}, limit=3)
    c.cov["rule"] = ("every example input and output of the repository (%d files), generated invoices (C01 variety) and payments: three rounds of serialise/parse/calculate with byte "
                     "comparison, parse->marshal identity, read-only operations on envelopes, two processes with GOMAXPROCS 1 and 16; the recalculation figures are also compared "
                     "with the model (as_input then calculate); non-numeric half (tools/props/c04norm.py): NormalizeCode / NormalizeAlphanumericalCode / NormalizeNumericalCode, "
                     "Code and Key validity, Address.Normalize, the scenario-note step of Invoice.Calculate under a synthetic add-on with generated scenario sets, json.Marshal / Unmarshal of "
                     "cbc.Meta filled in two orders, cal.Date text: each compared with the extracted model of rocq/Fix on exhaustive small inputs (all single bytes, all strings up to length 5 "
                     "over {A,-,space,#}, all triples over 13 characters) and random mixtures (punctuation, Unicode white space and letters, malformed UTF-8, long runs), and judged "
                     "directly (second application equal, clean output, order independence, read-back); the generated invoices include sub-lines (breakdown, substituted) whose "
                     "items are priced in another currency (exchange rate or alternative price) with fewer / as many / more decimals than the document's; extension-only inputs (tools/props/c04ext.py): every extension key / value of "
                     "every regime, add-on and catalogue at every ext position of invoice, order, delivery and payment, with and without key/type/rate beside it, built 6 times in one "
                     "process (byte-identical documents and digests) and fed back once; distinct = distinct documents / files / wire cases" % len(exs))
    if not proved:
        pr = c.proof
        c.report("proof obligations of Props/C04.v no longer check: " + (pr.get("make_log") or pr.get("log", ""))[-600:],
                 {"theorem": "rocq/Props/C04.v", "failed_files": pr.get("failed_files"), "forbidden": pr.get("forbidden")}, no_input=True)


def replay(path):
    r = json.load(open(path))["replay"]
    build_harness()
    if "notes_case" in r or "map_case" in r or "line" in r:
        l = r.get("notes_case") or r.get("map_case") or r.get("line")
        print(run_go([l], shards=1)[0])
        build_oracle()
        print(run_oracle([l], shards=1)[0])
    elif "input_hex" in r:
        print(run_go(["c04 %s x%s" % (r["normaliser"], r["input_hex"])], shards=1)[0])
    elif "repeat_document" in r:
        print(run_go(["c04 rep " + w(json.dumps(r["repeat_document"])) + " %d" % r.get("repeats", 12)], shards=1)[0])
    elif "document" in r:
        print(run_go(["c04 fix " + w(json.dumps(cg.strip_notes(r["document"])))], shards=1)[0])
    elif "payment" in r:
        print(run_go(["c04 fix " + w(json.dumps(r["payment"]))], shards=1)[0])
    elif "example" in r:
        for p, d in examples():
            if p == r["example"]:
                print(run_go(["c04 fix " + w(d)], shards=1)[0])
    return 0
